//! C15 — real schema application (`api_v1_db_schema` → `execute_schema` → `apply_schema`, and
//! `init_schema` through a fresh `setup` on the same database file) vs the Lean model `Corro.Schema`.
//!
//! Op lines (one case = one database directory, one in-process agent at a time):
//!   submit <stmt> <stmt> …   structured statements, rendered to SQL for the real handler (`submit -` = no statement)
//!   extern <stmt> …          the same statements executed as plain SQL on the write connection (outside the API)
//!   rows <table> <n>         insert n rows (plain SQL on the write connection), values derived from row number/column position
//!   restart                  drop the agent, `setup` a fresh one on the same database file (runs the real `init_schema`)
//! Statements (no blanks inside):
//!   T:<table>:<col>,<col>,…:<tpk>      col = name/TYPE/flags/default/gen ; flags ⊆ "npf" (NOT NULL, inline PRIMARY KEY,
//!                                      REFERENCES) or `-`; default = `-` | digits | word (rendered 'word');
//!                                      gen = `-` | v<src> | s<src> (GENERATED ALWAYS AS (src) VIRTUAL|STORED);
//!                                      tpk = `-` | a.b (table-level PRIMARY KEY (a, b)) | a.b! (… plus an expression)
//!   I:<index>:<table>:<c1.c2>:<where-col or ->:<u or ->
//!   E                                  a statement the SQL parser rejects
//!   U:<table>                          DROP TABLE <table> (an unsupported command)
use std::collections::{BTreeMap, BTreeSet};

use axum::Extension;
use klukai_agent::agent::{AgentOptions, setup};
use klukai_agent::api::public::api_v1_db_schema;
use klukai_types::agent::Agent;
use klukai_types::api::ExecResult;
use klukai_types::config::Config;
use klukai_types::tripwire::Tripwire;

use crate::rng::Rng;
use crate::runner::{CaseResult, Prop, Tier};
use crate::util::fnv;

pub struct C15;

// ------------------------------------------------------------------------------------------------
// structured statements
// ------------------------------------------------------------------------------------------------

#[derive(Clone, Debug, PartialEq, Eq)]
struct Col {
    name: String,
    ty: String,
    notnull: bool,
    inline_pk: bool,
    fk: bool,
    dflt: Option<String>,
    /// (stored, source column)
    generated: Option<(bool, String)>,
}

#[derive(Clone, Debug, PartialEq, Eq)]
struct Tab {
    name: String,
    cols: Vec<Col>,
    tpk: Option<Vec<String>>,
    pk_expr: bool,
}

#[derive(Clone, Debug, PartialEq, Eq)]
struct Idx {
    name: String,
    tbl: String,
    cols: Vec<String>,
    whr: Option<String>,
    unique: bool,
}

#[derive(Clone, Debug, PartialEq, Eq)]
enum Stmt {
    Table(Tab),
    Index(Idx),
    SyntaxError,
    Drop(String),
}

/// identifiers: a lower-case letter, optionally followed by a digit or `_` and then `[a-z0-9_]*`
/// (this shape cannot collide with an SQL keyword)
fn ident(s: &str) -> Option<String> {
    let b = s.as_bytes();
    if b.is_empty() || !b[0].is_ascii_lowercase() {
        return None;
    }
    if b.len() > 1 && !(b[1].is_ascii_digit() || b[1] == b'_') {
        return None;
    }
    if !b.iter().all(|c| c.is_ascii_lowercase() || c.is_ascii_digit() || *c == b'_') {
        return None;
    }
    Some(s.to_string())
}

fn distinct(xs: &[String]) -> bool {
    xs.iter().collect::<BTreeSet<_>>().len() == xs.len()
}

fn parse_col(s: &str) -> Option<Col> {
    let f: Vec<&str> = s.split('/').collect();
    if f.len() != 5 {
        return None;
    }
    let name = ident(f[0])?;
    if f[1].is_empty() || !f[1].bytes().all(|c| c.is_ascii_uppercase()) {
        return None;
    }
    let (mut notnull, mut inline_pk, mut fk) = (false, false, false);
    if f[2] != "-" {
        if f[2].is_empty() {
            return None;
        }
        for c in f[2].chars() {
            match c {
                'n' if !notnull => notnull = true,
                'p' if !inline_pk => inline_pk = true,
                'f' if !fk => fk = true,
                _ => return None,
            }
        }
    }
    let dflt = if f[3] == "-" {
        None
    } else {
        if f[3].is_empty() || !f[3].bytes().all(|c| c.is_ascii_lowercase() || c.is_ascii_digit()) {
            return None;
        }
        Some(f[3].to_string())
    };
    let generated = if f[4] == "-" {
        None
    } else {
        let (k, src) = f[4].split_at(1);
        let stored = match k {
            "v" => false,
            "s" => true,
            _ => return None,
        };
        Some((stored, ident(src)?))
    };
    Some(Col { name, ty: f[1].to_string(), notnull, inline_pk, fk, dflt, generated })
}

fn parse_stmt(s: &str) -> Option<Stmt> {
    if s == "E" {
        return Some(Stmt::SyntaxError);
    }
    let f: Vec<&str> = s.split(':').collect();
    match f[0] {
        "U" if f.len() == 2 => Some(Stmt::Drop(ident(f[1])?)),
        "T" if f.len() == 4 => {
            let name = ident(f[1])?;
            let cols: Vec<Col> = f[2].split(',').map(parse_col).collect::<Option<_>>()?;
            let names: Vec<String> = cols.iter().map(|c| c.name.clone()).collect();
            if !distinct(&names) {
                return None;
            }
            for c in &cols {
                if let Some((_, src)) = &c.generated {
                    // the source must be an ordinary column of the same table
                    if !cols.iter().any(|o| &o.name == src && o.generated.is_none()) {
                        return None;
                    }
                }
            }
            let inl = cols.iter().filter(|c| c.inline_pk).count();
            if inl > 1 || (inl == 1 && f[3] != "-") {
                return None;
            }
            let (tpk, pk_expr) = if f[3] == "-" {
                (None, false)
            } else {
                let (body, ex) = match f[3].strip_suffix('!') {
                    Some(b) => (b, true),
                    None => (f[3], false),
                };
                let l: Vec<String> = body.split('.').map(ident).collect::<Option<_>>()?;
                if !distinct(&l) || !l.iter().all(|n| names.contains(n)) {
                    return None;
                }
                (Some(l), ex)
            };
            Some(Stmt::Table(Tab { name, cols, tpk, pk_expr }))
        }
        "I" if f.len() == 6 => {
            let name = ident(f[1])?;
            let tbl = ident(f[2])?;
            let cols: Vec<String> = f[3].split('.').map(ident).collect::<Option<_>>()?;
            if !distinct(&cols) {
                return None;
            }
            let whr = if f[4] == "-" { None } else { Some(ident(f[4])?) };
            let unique = match f[5] {
                "u" => true,
                "-" => false,
                _ => return None,
            };
            Some(Stmt::Index(Idx { name, tbl, cols, whr, unique }))
        }
        _ => None,
    }
}

fn col_token(c: &Col) -> String {
    let mut fl = String::new();
    if c.notnull {
        fl.push('n');
    }
    if c.inline_pk {
        fl.push('p');
    }
    if c.fk {
        fl.push('f');
    }
    if fl.is_empty() {
        fl.push('-');
    }
    let g = match &c.generated {
        None => "-".to_string(),
        Some((st, src)) => format!("{}{src}", if *st { "s" } else { "v" }),
    };
    format!("{}/{}/{}/{}/{}", c.name, c.ty, fl, c.dflt.as_deref().unwrap_or("-"), g)
}

fn stmt_token(s: &Stmt) -> String {
    match s {
        Stmt::SyntaxError => "E".into(),
        Stmt::Drop(t) => format!("U:{t}"),
        Stmt::Table(t) => {
            let cols: Vec<String> = t.cols.iter().map(col_token).collect();
            let tpk = match &t.tpk {
                None => "-".to_string(),
                Some(l) => format!("{}{}", l.join("."), if t.pk_expr { "!" } else { "" }),
            };
            format!("T:{}:{}:{}", t.name, cols.join(","), tpk)
        }
        Stmt::Index(i) => format!(
            "I:{}:{}:{}:{}:{}",
            i.name,
            i.tbl,
            i.cols.join("."),
            i.whr.as_deref().unwrap_or("-"),
            if i.unique { "u" } else { "-" }
        ),
    }
}

fn dflt_sql(d: &str) -> String {
    if d.bytes().all(|c| c.is_ascii_digit()) { d.to_string() } else { format!("'{d}'") }
}

fn col_sql(c: &Col) -> String {
    let mut s = format!("{} {}", c.name, c.ty);
    if c.inline_pk {
        s.push_str(" PRIMARY KEY");
    }
    if c.notnull {
        s.push_str(" NOT NULL");
    }
    if let Some(d) = &c.dflt {
        s.push_str(&format!(" DEFAULT {}", dflt_sql(d)));
    }
    if c.fk {
        s.push_str(" REFERENCES fk_target (id)");
    }
    if let Some((stored, src)) = &c.generated {
        s.push_str(&format!(" GENERATED ALWAYS AS ({src}) {}", if *stored { "STORED" } else { "VIRTUAL" }));
    }
    s
}

fn stmt_sql(s: &Stmt) -> String {
    match s {
        Stmt::SyntaxError => "CREATE TABLE oops (".into(),
        Stmt::Drop(t) => format!("DROP TABLE {t}"),
        Stmt::Table(t) => {
            let mut parts: Vec<String> = t.cols.iter().map(col_sql).collect();
            if let Some(l) = &t.tpk {
                let mut l: Vec<String> = l.clone();
                if t.pk_expr {
                    l.push(format!("abs({})", t.cols[0].name));
                }
                parts.push(format!("PRIMARY KEY ({})", l.join(", ")));
            }
            format!("CREATE TABLE {} ({})", t.name, parts.join(", "))
        }
        Stmt::Index(i) => format!(
            "CREATE {}INDEX {} ON {} ({}){}",
            if i.unique { "UNIQUE " } else { "" },
            i.name,
            i.tbl,
            i.cols.join(", "),
            i.whr.as_ref().map(|w| format!(" WHERE {w} IS NOT NULL")).unwrap_or_default()
        ),
    }
}

// ------------------------------------------------------------------------------------------------
// observing the real database and the real in-memory schema
// ------------------------------------------------------------------------------------------------

#[derive(Clone, Debug, PartialEq, Eq)]
struct DbCol {
    name: String,
    ty: String,
    notnull: bool,
    dflt: Option<String>,
    pkpos: u32,
    hidden: u32,
}

#[derive(Clone, Debug, PartialEq, Eq, Default)]
struct DbTab {
    cols: Vec<DbCol>,
    /// name → (columns, partial)
    idx: BTreeMap<String, (Vec<String>, bool)>,
    crr: bool,
    /// each row: values (as text) of the stored columns in column order
    rows: Vec<Vec<(String, String)>>,
}

#[derive(Clone, Debug, PartialEq, Eq, Default)]
struct DbSnap {
    tabs: BTreeMap<String, DbTab>,
    /// everything else that must not move on a rejected submission: sqlite_schema, __corro_schema, clock-table sizes
    raw: Vec<String>,
}

fn unquote(s: &str) -> String {
    let t = s.trim();
    if t.len() >= 2 && ((t.starts_with('\'') && t.ends_with('\'')) || (t.starts_with('"') && t.ends_with('"'))) {
        t[1..t.len() - 1].to_string()
    } else {
        t.to_string()
    }
}

fn internal_table(name: &str) -> bool {
    name.starts_with("__corro") || name.starts_with("sqlite_") || name.starts_with("crsql") || name.contains("__crsql_")
}

fn value_text(v: rusqlite::types::ValueRef<'_>) -> String {
    use rusqlite::types::ValueRef::*;
    match v {
        Null => "NULL".into(),
        Integer(i) => i.to_string(),
        Real(f) => format!("real{f}"),
        Text(t) => String::from_utf8_lossy(t).into_owned(),
        Blob(b) => format!("x{}", hex::encode(b)),
    }
}

fn snapshot_db(path: &str) -> rusqlite::Result<DbSnap> {
    let conn = rusqlite::Connection::open_with_flags(path, rusqlite::OpenFlags::SQLITE_OPEN_READ_ONLY)?;
    let mut snap = DbSnap::default();
    let mut all: Vec<(String, String, String, Option<String>)> = conn
        .prepare("SELECT type, name, tbl_name, sql FROM sqlite_schema")?
        .query_map((), |r| Ok((r.get(0)?, r.get(1)?, r.get(2)?, r.get(3)?)))?
        .collect::<rusqlite::Result<_>>()?;
    all.sort();
    let names: BTreeSet<String> = all.iter().filter(|r| r.0 == "table").map(|r| r.1.clone()).collect();
    for (ty, name, tbl, sql) in &all {
        if name.starts_with("__corro") || tbl.starts_with("__corro") {
            continue;
        }
        snap.raw.push(format!("schema {ty} {name} {tbl} {}", sql.clone().unwrap_or_default()));
    }
    for (tbl, ty, name, sql) in conn
        .prepare("SELECT tbl_name, type, name, sql FROM __corro_schema ORDER BY 1,2,3")?
        .query_map((), |r| Ok((r.get::<_, String>(0)?, r.get::<_, String>(1)?, r.get::<_, String>(2)?, r.get::<_, String>(3)?)))?
        .collect::<rusqlite::Result<Vec<_>>>()?
    {
        snap.raw.push(format!("persisted {tbl} {ty} {name} {sql}"));
    }
    for t in &names {
        if t.contains("__crsql_") {
            let n: i64 = conn.query_row(&format!("SELECT count(*) FROM \"{t}\""), (), |r| r.get(0))?;
            snap.raw.push(format!("count {t} {n}"));
        }
        if internal_table(t) {
            continue;
        }
        let mut tab = DbTab { crr: names.contains(&format!("{t}__crsql_clock")), ..Default::default() };
        tab.cols = conn
            .prepare("SELECT name, type, \"notnull\", dflt_value, pk, hidden FROM pragma_table_xinfo(?) ORDER BY cid")?
            .query_map([t], |r| {
                Ok(DbCol {
                    name: r.get(0)?,
                    ty: r.get(1)?,
                    notnull: r.get::<_, i64>(2)? != 0,
                    dflt: r.get::<_, Option<String>>(3)?.map(|d| unquote(&d)),
                    pkpos: r.get::<_, i64>(4)? as u32,
                    hidden: r.get::<_, i64>(5)? as u32,
                })
            })?
            .collect::<rusqlite::Result<_>>()?;
        let idx: Vec<(String, String, i64)> = conn
            .prepare("SELECT name, origin, partial FROM pragma_index_list(?)")?
            .query_map([t], |r| Ok((r.get(0)?, r.get(1)?, r.get(2)?)))?
            .collect::<rusqlite::Result<_>>()?;
        for (iname, origin, partial) in idx {
            if origin != "c" {
                continue; // automatic indexes of PRIMARY KEY / UNIQUE constraints
            }
            let cols: Vec<String> = conn
                .prepare("SELECT name FROM pragma_index_info(?) ORDER BY seqno")?
                .query_map([&iname], |r| r.get::<_, Option<String>>(0))?
                .collect::<rusqlite::Result<Vec<_>>>()?
                .into_iter()
                .map(|c| c.unwrap_or_else(|| "<expr>".into()))
                .collect();
            tab.idx.insert(iname, (cols, partial != 0));
        }
        let stored: Vec<String> = tab.cols.iter().filter(|c| c.hidden == 0).map(|c| c.name.clone()).collect();
        if !stored.is_empty() {
            let sql = format!("SELECT {} FROM \"{t}\"", stored.iter().map(|c| format!("\"{c}\"")).collect::<Vec<_>>().join(", "));
            let mut st = conn.prepare(&sql)?;
            let mut rows = st.query(())?;
            while let Some(r) = rows.next()? {
                let mut row = vec![];
                for (i, c) in stored.iter().enumerate() {
                    row.push((c.clone(), value_text(r.get_ref(i)?)));
                }
                tab.rows.push(row);
            }
        }
        snap.tabs.insert(t.clone(), tab);
    }
    Ok(snap)
}

#[derive(Clone, Debug, PartialEq, Eq)]
struct MemCol {
    name: String,
    ty: String,
    nullable: bool,
    dflt: Option<String>,
    pk: bool,
    gen_from: Option<Vec<String>>,
}

#[derive(Clone, Debug, PartialEq, Eq, Default)]
struct MemTab {
    cols: Vec<MemCol>,
    pk: Vec<String>,
    /// name → (columns, has where clause, unique)
    idx: BTreeMap<String, (Vec<String>, bool, bool)>,
}

type MemSnap = BTreeMap<String, MemTab>;

fn snapshot_mem(agent: &Agent) -> MemSnap {
    let schema = agent.schema().read();
    let mut out = MemSnap::new();
    for (name, t) in schema.tables.iter() {
        let mut mt = MemTab { pk: t.pk.iter().cloned().collect(), ..Default::default() };
        for (cn, c) in t.columns.iter() {
            mt.cols.push(MemCol {
                name: cn.clone(),
                ty: c.sql_type.1.clone().unwrap_or_default(),
                nullable: c.nullable,
                dflt: c.default_value.as_deref().map(unquote),
                pk: c.primary_key,
                gen_from: c.generated.as_ref().map(|g| g.from.clone()),
            });
        }
        for (iname, i) in t.indexes.iter() {
            let cols = i.columns.iter().map(|sc| unquote(&sc.expr.to_string())).collect();
            mt.idx.insert(iname.clone(), (cols, i.where_clause.is_some(), i.unique));
        }
        out.insert(name.clone(), mt);
    }
    out
}

fn digest(rows: &[Vec<(String, String)>]) -> String {
    let mut lines: Vec<String> = rows
        .iter()
        .map(|r| r.iter().map(|(c, v)| format!("{c}={v}")).collect::<Vec<_>>().join(","))
        .collect();
    lines.sort();
    format!("{}:{:016x}", rows.len(), fnv(&lines.join("\n")))
}

fn or_dash(s: String) -> String {
    if s.is_empty() { "-".into() } else { s }
}

fn show_db(s: &DbSnap) -> String {
    let tabs: Vec<String> = s
        .tabs
        .iter()
        .map(|(n, t)| {
            let cols: Vec<String> = t
                .cols
                .iter()
                .map(|c| {
                    format!(
                        "{}/{}/{}/{}/{}",
                        c.name,
                        or_dash(c.ty.clone()),
                        if c.notnull { "n" } else { "-" },
                        c.dflt.clone().unwrap_or_else(|| "-".into()),
                        match c.hidden {
                            0 => "-",
                            2 => "v",
                            3 => "s",
                            _ => "?",
                        }
                    )
                })
                .collect();
            let mut pk: Vec<(u32, String)> = t.cols.iter().filter(|c| c.pkpos > 0).map(|c| (c.pkpos, c.name.clone())).collect();
            pk.sort();
            let idx: Vec<String> =
                t.idx.iter().map(|(n, (cols, p))| format!("{n}[{}:{}]", cols.join("."), if *p { "w" } else { "-" })).collect();
            format!(
                "{n}({}|pk={}|idx={}|crr={}|rows={})",
                cols.join(","),
                or_dash(pk.into_iter().map(|p| p.1).collect::<Vec<_>>().join(".")),
                or_dash(idx.join(",")),
                t.crr as u8,
                digest(&t.rows)
            )
        })
        .collect();
    or_dash(tabs.join(";"))
}

fn show_mem(m: &MemSnap) -> String {
    let tabs: Vec<String> = m
        .iter()
        .map(|(n, t)| {
            let cols: Vec<String> = t
                .cols
                .iter()
                .map(|c| {
                    let mut fl = String::new();
                    if !c.nullable {
                        fl.push('n');
                    }
                    if c.pk {
                        fl.push('k');
                    }
                    format!(
                        "{}/{}/{}/{}/{}",
                        c.name,
                        or_dash(c.ty.clone()),
                        or_dash(fl),
                        c.dflt.clone().unwrap_or_else(|| "-".into()),
                        c.gen_from.as_ref().map(|f| format!("g{}", f.join("+"))).unwrap_or_else(|| "-".into())
                    )
                })
                .collect();
            let idx: Vec<String> = t
                .idx
                .iter()
                .map(|(n, (cols, w, u))| format!("{n}[{}:{}{}]", cols.join("."), if *w { "w" } else { "-" }, if *u { "u" } else { "" }))
                .collect();
            format!("{n}({}|pk={}|idx={})", cols.join(","), or_dash(t.pk.join(".")), or_dash(idx.join(",")))
        })
        .collect();
    or_dash(tabs.join(";"))
}

/// the real error text → the small set of names shared with the model
fn err_class(msg: &str) -> &'static str {
    // the four "edit of an existing table" kinds are ONE token: which wrong table apply_schema meets first
    // depends on HashSet order when a submission has two of them (see Driver/C15.lean)
    let m = msg;
    if m.contains("at least 1 statement") {
        "empty"
    } else if m.contains("won't drop table") {
        "drop-table"
    } else if m.contains("won't remove column") {
        "table-edit"
    } else if m.contains("won't change column") {
        "table-edit"
    } else if m.contains("can't add a primary key") {
        "table-edit"
    } else if m.contains("can't modify primary keys") {
        "table-edit"
    } else if m.contains("primary keys mismatched") {
        "imported-pk-mismatch"
    } else if m.contains("columns mismatched") {
        "imported-cols-mismatch"
    } else if m.contains("unique indexes are not supported") {
        "unique-index"
    } else if m.contains("needs a default value") {
        "not-null-needs-default"
    } else if m.contains("foreign keys are not supported") {
        "foreign-key"
    } else if m.contains("expr used as primary") {
        "pk-expr"
    } else if m.contains("unsupported command") || m.contains("nothing to parse") {
        "unsupported"
    } else if m.contains("missing table for index") {
        "index-without-table"
    } else if m.contains("temporary tables are not supported") {
        "temporary"
    } else if m.contains(" at line: ") && m.contains(", column: ") {
        // sqlite3_parser::lexer::sql::Error: "<what> at line: L, column: C"
        "parse"
    } else {
        "sqlite"
    }
}

// ------------------------------------------------------------------------------------------------
// one real agent on a directory
// ------------------------------------------------------------------------------------------------

struct Node {
    agent: Agent,
    _opts: AgentOptions,
    _tw: (Tripwire, klukai_types::tripwire::TripwireWorker<tokio_stream::wrappers::ReceiverStream<()>>, tokio::sync::mpsc::Sender<()>),
}

async fn start_node(db_path: &str) -> Result<Node, String> {
    let (tripwire, worker, tx) = Tripwire::new_simple();
    let conf = Config::builder()
        .db_path(db_path.to_string())
        .gossip_addr("127.0.0.1:0".parse().unwrap())
        .api_addr("127.0.0.1:0".parse().unwrap())
        .build()
        .map_err(|e| format!("config: {e}"))?;
    let (agent, opts) = setup(conf, tripwire.clone()).await.map_err(|e| format!("setup: {e}"))?;
    Ok(Node { agent, _opts: opts, _tw: (tripwire, worker, tx) })
}

async fn real_submit(agent: &Agent, stmts: &[Stmt]) -> Result<(), String> {
    let sql: Vec<String> = stmts.iter().map(stmt_sql).collect();
    let (status, body) = api_v1_db_schema(Extension(agent.clone()), axum::Json(sql)).await;
    if status.is_success() {
        return Ok(());
    }
    let msg = body
        .0
        .results
        .iter()
        .find_map(|r| if let ExecResult::Error { error } = r { Some(error.clone()) } else { None })
        .unwrap_or_else(|| format!("status {status}"));
    Err(msg)
}

async fn real_extern(agent: &Agent, stmts: &[Stmt]) -> Result<(), String> {
    let mut conn = agent.pool().write_priority().await.map_err(|e| format!("pool: {e}"))?;
    tokio::task::block_in_place(|| {
        let tx = conn.transaction().map_err(|e| e.to_string())?;
        for s in stmts {
            match s {
                Stmt::Table(_) | Stmt::Index(_) => tx.execute_batch(&stmt_sql(s)).map_err(|e| e.to_string())?,
                _ => return Err("extern: only tables and indexes".to_string()),
            }
        }
        tx.commit().map_err(|e| e.to_string())
    })
}

async fn real_rows(agent: &Agent, table: &str, n: u64) -> Result<(), String> {
    let mut conn = agent.pool().write_priority().await.map_err(|e| format!("pool: {e}"))?;
    tokio::task::block_in_place(|| {
        let tx = conn.transaction().map_err(|e| e.to_string())?;
        let cols: Vec<(i64, String, i64)> = tx
            .prepare("SELECT cid, name, hidden FROM pragma_table_xinfo(?) ORDER BY cid")
            .and_then(|mut st| st.query_map([table], |r| Ok((r.get(0)?, r.get(1)?, r.get(2)?)))?.collect::<rusqlite::Result<Vec<_>>>())
            .map_err(|e| e.to_string())?;
        if cols.is_empty() {
            return Err("no such table".to_string());
        }
        let have: i64 = tx.query_row(&format!("SELECT count(*) FROM \"{table}\""), (), |r| r.get(0)).map_err(|e| e.to_string())?;
        for i in 0..n as i64 {
            let k = have + i + 1;
            let stored: Vec<(usize, &String)> = cols.iter().enumerate().filter(|(_, c)| c.2 == 0).map(|(j, c)| (j, &c.1)).collect();
            let names: Vec<String> = stored.iter().map(|(_, c)| format!("\"{c}\"")).collect();
            let vals: Vec<String> = stored.iter().map(|(j, _)| (k * 100 + *j as i64).to_string()).collect();
            tx.execute(&format!("INSERT INTO \"{table}\" ({}) VALUES ({})", names.join(", "), vals.join(", ")), ()).map_err(|e| e.to_string())?;
        }
        tx.commit().map_err(|e| e.to_string())
    })
}

// ------------------------------------------------------------------------------------------------
// the property, evaluated on the real observations only
// ------------------------------------------------------------------------------------------------

fn oracle_additive(before: &(DbSnap, MemSnap), after: &(DbSnap, MemSnap), fails: &mut Vec<String>) {
    for (name, bt) in &before.0.tabs {
        let Some(at) = after.0.tabs.get(name) else {
            fails.push(format!("accepted submission dropped table {name} from the database"));
            continue;
        };
        if at.cols.len() < bt.cols.len() || at.cols[..bt.cols.len()] != bt.cols[..] {
            fails.push(format!("accepted submission changed or dropped existing columns/keys of table {name} in the database"));
        }
        if bt.crr && !at.crr {
            fails.push(format!("table {name} is no longer replicated"));
        }
        // every old row is still there with the same values in the old columns
        let old_cols: BTreeSet<&String> = bt.cols.iter().map(|c| &c.name).collect();
        let mut remaining: Vec<Vec<(String, String)>> =
            at.rows.iter().map(|r| r.iter().filter(|(c, _)| old_cols.contains(c)).cloned().collect()).collect();
        for r in &bt.rows {
            match remaining.iter().position(|x| x == r) {
                Some(p) => {
                    remaining.swap_remove(p);
                }
                None => {
                    fails.push(format!("a row of table {name} was lost or changed by an accepted submission"));
                    break;
                }
            }
        }
    }
    for (name, bt) in &before.1 {
        let Some(at) = after.1.get(name) else {
            fails.push(format!("accepted submission dropped table {name} from the in-memory schema"));
            continue;
        };
        if at.pk != bt.pk {
            fails.push(format!("primary key of table {name} changed in the in-memory schema: {:?} -> {:?}", bt.pk, at.pk));
        }
        for c in &bt.cols {
            if at.cols.iter().find(|x| x.name == c.name) != Some(c) {
                fails.push(format!("column {name}.{} dropped or redefined in the in-memory schema", c.name));
            }
        }
    }
}

/// the in-memory schema and the database describe the same tables (checked where the node restarts)
fn mem_of_db(db: &DbSnap, mem: &MemSnap) -> Vec<String> {
    let mut out = vec![];
    for (name, mt) in mem {
        let Some(dt) = db.tabs.get(name) else {
            out.push(format!("table {name} is in the in-memory schema but not in the database"));
            continue;
        };
        let mut pk: Vec<(u32, String)> = dt.cols.iter().filter(|c| c.pkpos > 0).map(|c| (c.pkpos, c.name.clone())).collect();
        pk.sort();
        let pk: Vec<String> = pk.into_iter().map(|p| p.1).collect();
        if pk != mt.pk {
            out.push(format!("table {name}: key order in memory {:?} differs from the database {:?}", mt.pk, pk));
        }
    }
    out
}

// ------------------------------------------------------------------------------------------------
// executing a case
// ------------------------------------------------------------------------------------------------

fn tmp_root() -> std::path::PathBuf {
    std::path::PathBuf::from("/verif/harness/target/tmp")
}

struct CaseDir(std::path::PathBuf);
impl Drop for CaseDir {
    fn drop(&mut self) {
        let _ = std::fs::remove_dir_all(&self.0);
    }
}

async fn run_case(ops: &[String], db_path: &str, res: &mut CaseResult) -> Result<(), String> {
    let mut node = start_node(db_path).await?;
    let mut accepted_change = false;
    let mut rejected = false;
    let mut used_extern = false;
    let mut prev_submit: Option<(String, bool)> = None; // (op line, accepted)
    for op in ops {
        let toks: Vec<&str> = op.split_whitespace().collect();
        let before = (snapshot_db(db_path).map_err(|e| format!("snapshot: {e}"))?, snapshot_mem(&node.agent));
        let mut verdict: String;
        match toks.first().copied() {
            Some(kind @ ("submit" | "extern")) if toks.len() >= 2 => {
                let stmts: Option<Vec<Stmt>> =
                    if toks.len() == 2 && toks[1] == "-" { Some(vec![]) } else { toks[1..].iter().map(|t| parse_stmt(t)).collect() };
                let Some(stmts) = stmts else {
                    res.outputs.push("bad-op".into());
                    continue;
                };
                if kind == "extern" && stmts.iter().any(|s| matches!(s, Stmt::Table(t) if t.cols.iter().any(|c| c.fk))) {
                    // REFERENCES columns are kept out of plain-SQL tables (foreign keys are enforced on inserts)
                    res.outputs.push("bad-op".into());
                    continue;
                }
                if kind == "extern" {
                    used_extern = true;
                    verdict = match real_extern(&node.agent, &stmts).await {
                        Ok(()) => "ok".into(),
                        Err(_) => "err sqlite".into(),
                    };
                    prev_submit = None;
                } else {
                    let new_first = stmts.iter().find_map(|s| if let Stmt::Table(t) = s { Some(!before.0.tabs.contains_key(&t.name)) } else { None });
                    let r = real_submit(&node.agent, &stmts).await;
                    let after = (snapshot_db(db_path).map_err(|e| format!("snapshot: {e}"))?, snapshot_mem(&node.agent));
                    match &r {
                        Ok(()) => {
                            verdict = "ok".into();
                            res.tags.push("accept".into());
                            oracle_additive(&before, &after, &mut res.oracle_failures);
                            if before.0.tabs != after.0.tabs {
                                accepted_change = true;
                                res.tags.push("accept-with-change".into());
                            }
                            if let Some((line, true)) = &prev_submit {
                                if line == op && !used_extern {
                                    res.tags.push("resubmit".into());
                                    if before != after {
                                        res.oracle_failures.push("re-applying an already applied schema changed the database or the in-memory schema".into());
                                    }
                                }
                            }
                        }
                        Err(msg) => {
                            let class = err_class(msg);
                            if std::env::var("HX_VERBOSE").is_ok() {
                                eprintln!("C15 reject [{class}]: {msg}");
                            }
                            verdict = format!("err {class}");
                            res.tags.push(format!("err:{class}"));
                            rejected = true;
                            if !matches!(class, "empty" | "parse" | "unsupported" | "index-without-table" | "pk-expr" | "not-null-needs-default" | "foreign-key" | "unique-index")
                                && new_first == Some(true)
                            {
                                res.tags.push("reject-after-partial-apply".into());
                            }
                            if before.0 != after.0 {
                                res.oracle_failures.push(format!("rejected submission ({class}) changed the database"));
                            }
                            if before.1 != after.1 {
                                res.oracle_failures.push(format!("rejected submission ({class}) changed the in-memory schema"));
                            }
                            if let Some((line, true)) = &prev_submit {
                                if line == op && !used_extern {
                                    res.oracle_failures.push(format!("re-applying an accepted schema was rejected ({class})"));
                                }
                            }
                        }
                    }
                    prev_submit = Some((op.clone(), r.is_ok()));
                }
            }
            Some("rows") if toks.len() == 3 => {
                let (Some(t), Ok(n)) = (ident(toks[1]), toks[2].parse::<u64>()) else {
                    res.outputs.push("bad-op".into());
                    continue;
                };
                if n > 50 {
                    res.outputs.push("bad-op".into());
                    continue;
                }
                verdict = match real_rows(&node.agent, &t, n).await {
                    Ok(()) => "ok".into(),
                    Err(e) if e == "no such table" => "err no-table".into(),
                    Err(e) => {
                        // the table exists: whatever schema submissions came before, the node must be able to write to it
                        res.oracle_failures.push(format!("the node cannot write to table {t} of its schema: {e}"));
                        res.tags.push("insert-failed".into());
                        format!("err insert:{}", e.replace(' ', "_"))
                    }
                };
            }
            Some("restart") if toks.len() == 1 => {
                drop(node);
                node = start_node(db_path).await?;
                let after_mem = snapshot_mem(&node.agent);
                res.tags.push("restart".into());
                if after_mem != before.1 {
                    res.oracle_failures.push(format!(
                        "after a restart the node works with a different schema: before `{}` after `{}`",
                        show_mem(&before.1),
                        show_mem(&after_mem)
                    ));
                }
                let db_now = snapshot_db(db_path).map_err(|e| format!("snapshot: {e}"))?;
                if db_now != before.0 {
                    res.oracle_failures.push("a restart changed the database".into());
                }
                for f in mem_of_db(&db_now, &after_mem) {
                    res.oracle_failures.push(f);
                }
                verdict = "ok".into();
            }
            _ => {
                res.outputs.push("bad-op".into());
                continue;
            }
        }
        let db = snapshot_db(db_path).map_err(|e| format!("snapshot: {e}"))?;
        let mem = snapshot_mem(&node.agent);
        verdict.push_str(&format!(" db={} mem={}", show_db(&db), show_mem(&mem)));
        res.outputs.push(verdict);
    }
    res.nontrivial = accepted_change && rejected;
    drop(node);
    Ok(())
}

impl Prop for C15 {
    fn id(&self) -> &'static str {
        "C15"
    }
    fn rule(&self) -> &'static str {
        "a sequence counts if its op list is new, at least one submission was accepted and changed the database, and at least one was rejected"
    }
    fn default_cases(&self, tier: Tier) -> usize {
        match tier {
            Tier::Quick => 60,
            Tier::Thorough => 1500,
        }
    }
    fn begin(&self) {
        let _ = std::fs::create_dir_all(tmp_root());
    }
    /// fixed shapes that every run has: forbidden edits COMBINED with allowed ones in the same table
    /// (rename = dropped + added column, drop + add + add, changed definition / key next to a new column)
    /// and across two tables of one submission; each followed by rows, an allowed submission and a restart
    fn enumerated_case(&self, _tier: Tier, index: usize) -> Option<Vec<String>> {
        let t1 = "T:t1:a/INTEGER/np/-/-,c_foo/TEXT/-/-/-,b/INTEGER/-/7/-:- I:t1_i0:t1:b:-:-";
        let t2 = "T:t2:a/INTEGER/n/-/-,b/TEXT/n/-/-,c/TEXT/-/w1/-:a.b I:t2_i0:t2:c:-:-";
        let head = vec![format!("submit {t1} {t2}"), "rows t1 2".to_string(), "rows t2 2".to_string()];
        let tail = vec![
            "rows t1 1".to_string(),
            "submit T:t1:a/INTEGER/np/-/-,c_foo/TEXT/-/-/-,b/INTEGER/-/7/-,z1/TEXT/-/-/-:- I:t1_i0:t1:b:-:-".to_string(),
            "rows t1 1".to_string(),
            "restart".to_string(),
            "rows t2 1".to_string(),
        ];
        let mid: Vec<&str> = match index {
            // rename (same length), rename + one more column (longer), rename at the end, drop + add + add without the index
            0 => vec![
                "submit T:t1:a/INTEGER/np/-/-,c_bar/TEXT/-/-/-,b/INTEGER/-/7/-:- I:t1_i0:t1:b:-:-",
                "submit T:t1:a/INTEGER/np/-/-,c_bar/TEXT/-/-/-,b/INTEGER/-/7/-,c/TEXT/-/w2/-:- I:t1_i0:t1:b:-:-",
                "submit T:t1:a/INTEGER/np/-/-,b/INTEGER/-/7/-,c_bar/TEXT/-/-/-:- I:t1_i0:t1:b:-:-",
                "submit T:t1:a/INTEGER/np/-/-,b/INTEGER/-/7/-,c/TEXT/-/-/-,d/INTEGER/n/1/-:-",
            ],
            // changed type / default / nullability of one column while another is added; key change while a column is added
            1 => vec![
                "submit T:t1:a/INTEGER/np/-/-,c_foo/INTEGER/-/-/-,b/INTEGER/-/7/-,c/TEXT/-/-/-:- I:t1_i0:t1:b:-:-",
                "submit T:t1:a/INTEGER/np/-/-,c/TEXT/-/-/-,c_foo/TEXT/-/-/-,b/INTEGER/-/8/-:- I:t1_i0:t1:b:-:-",
                "submit T:t1:a/INTEGER/np/-/-,c_foo/TEXT/n/x/-,b/INTEGER/-/7/-,c/TEXT/-/-/va:-",
                "submit T:t2:a/INTEGER/n/-/-,b/TEXT/n/-/-,c/TEXT/-/w1/-,d/INTEGER/-/-/-:b.a I:t2_i0:t2:c:-:-",
                "submit T:t2:a/INTEGER/n/-/-,b/TEXT/n/-/-,c/TEXT/-/w1/-,d/INTEGER/n/0/-:a.b.d",
                "submit T:t2:a/INTEGER/n/-/-,b/TEXT/n/-/-,c/TEXT/n/w1/-,d/INTEGER/-/-/-:a I:t2_i0:t2:c:-:-",
            ],
            // across two tables of one submission: allowed edit of one table (new column, dropped index) and a
            // combined forbidden one of the other, after a new table that is created before the error
            2 => vec![
                "submit T:t2:a/INTEGER/n/-/-,b/TEXT/n/-/-,c/TEXT/-/w1/-,d/INTEGER/-/5/-:a.b T:t1:a/INTEGER/np/-/-,c_bar/TEXT/-/-/-,b/INTEGER/-/7/-:- I:t1_i0:t1:b:-:-",
                "submit T:t3:a/INTEGER/np/-/-,b/TEXT/-/-/-:- I:t3_i0:t3:b:-:- T:t1:a/INTEGER/np/-/-,c_foo/TEXT/-/-/-,b/INTEGER/-/7/-,c/TEXT/-/-/-:- T:t2:a/INTEGER/n/-/-,b/TEXT/n/-/-,e/TEXT/-/w1/-,d/INTEGER/-/-/-:a.b",
                "submit T:t1:a/INTEGER/np/-/-,c_foo/TEXT/-/-/-,b/INTEGER/-/7/-,c/TEXT/-/-/-:- T:t2:a/INTEGER/n/-/-,b/TEXT/n/-/-,c/TEXT/-/w1/-,d/INTEGER/-/5/-:a.b",
                "submit T:t1:a/INTEGER/np/-/-,c_foo/TEXT/-/-/-,b/INTEGER/-/7/-,c/TEXT/-/-/-:- T:t2:a/INTEGER/n/-/-,b/TEXT/n/-/-,c/TEXT/-/w1/-,d/INTEGER/-/5/-:a.b",
            ],
            _ => return None,
        };
        let mut ops = head;
        ops.extend(mid.into_iter().map(String::from));
        if index == 2 {
            // t1 got column c in that case: the closing allowed submission has to list it
            let mut tail = tail;
            tail[1] = "submit T:t1:a/INTEGER/np/-/-,c_foo/TEXT/-/-/-,b/INTEGER/-/7/-,c/TEXT/-/-/-,z1/TEXT/-/-/-:-".to_string();
            ops.extend(tail);
        } else {
            ops.extend(tail);
        }
        Some(ops)
    }
    fn gen_case(&self, rng: &mut Rng, tier: Tier, index: usize) -> Vec<String> {
        gen_sequence(rng, tier, index)
    }
    fn exec_case(&self, ops: &[String]) -> CaseResult {
        let mut res = CaseResult::default();
        let _ = std::fs::create_dir_all(tmp_root());
        let dir = tmp_root().join(format!("c15-{}-{:016x}", std::process::id(), fnv(&ops.join("\n"))));
        let _ = std::fs::remove_dir_all(&dir);
        if let Err(e) = std::fs::create_dir_all(&dir) {
            res.inconclusive = Some(format!("tmpdir:{e}"));
            return res;
        }
        let guard = CaseDir(dir.clone());
        let db_path = dir.join("corrosion.db").display().to_string();
        let rt = tokio::runtime::Builder::new_multi_thread().worker_threads(2).enable_all().build().expect("runtime");
        let r = rt.block_on(run_case(ops, &db_path, &mut res));
        rt.shutdown_background();
        drop(guard);
        if let Err(e) = r {
            // the real node could not be started / observed: that is a failure of the run, not of the generator
            res.oracle_failures.push(format!("harness could not drive the real node: {e}"));
            while res.outputs.len() < ops.len() {
                res.outputs.push("impl-error".into());
            }
        }
        res
    }
}

// ------------------------------------------------------------------------------------------------
// generator
// ------------------------------------------------------------------------------------------------

#[derive(Clone, Debug)]
struct GTab {
    tab: Tab,
    idx: Vec<Idx>,
    /// rows inserted so far (SQLite tests some ALTER TABLE restrictions against the rows)
    rows: u64,
}

fn g_stmts(t: &GTab) -> Vec<Stmt> {
    let mut v = vec![Stmt::Table(t.tab.clone())];
    v.extend(t.idx.iter().cloned().map(Stmt::Index));
    v
}

const TYPES: [&str; 4] = ["INTEGER", "TEXT", "BLOB", "BIGINT"];

fn fresh_col(rng: &mut Rng, name: String, stored_cols: &[String], allow_gen: bool) -> Col {
    let ty = rng.pick(&TYPES).to_string();
    let mut c = Col { name, ty, notnull: false, inline_pk: false, fk: false, dflt: None, generated: None };
    match rng.below(if allow_gen && !stored_cols.is_empty() { 5 } else { 4 }) {
        0 => {}
        1 => c.dflt = Some(if rng.chance(1, 2) { rng.below(90).to_string() } else { format!("w{}", rng.below(9)) }),
        2 => {
            c.notnull = true;
            c.dflt = Some(rng.below(90).to_string());
        }
        3 => {
            c.notnull = true;
            c.dflt = Some(format!("w{}", rng.below(9)));
        }
        _ => c.generated = Some((false, rng.pick(stored_cols).clone())),
    }
    c
}

fn fresh_table(rng: &mut Rng, name: String) -> GTab {
    let composite = rng.chance(1, 2);
    let mut cols = vec![];
    let letters = ["a", "b", "c", "d", "e", "f"];
    let n = rng.range(2, 4) as usize;
    for (i, l) in letters.iter().enumerate().take(n) {
        let is_key = i == 0 || (composite && i == 1);
        if is_key {
            cols.push(Col {
                name: l.to_string(),
                ty: if rng.chance(2, 3) { "INTEGER".into() } else { "TEXT".into() },
                notnull: true,
                inline_pk: !composite,
                fk: false,
                dflt: None,
                generated: None,
            });
        } else {
            let stored: Vec<String> = cols.iter().filter(|c: &&Col| c.generated.is_none()).map(|c| c.name.clone()).collect();
            cols.push(fresh_col(rng, l.to_string(), &stored, true));
        }
    }
    let tpk = if composite {
        Some(if rng.chance(1, 3) { vec!["b".to_string(), "a".to_string()] } else { vec!["a".to_string(), "b".to_string()] })
    } else {
        None
    };
    let mut g = GTab { tab: Tab { name: name.clone(), cols, tpk, pk_expr: false }, idx: vec![], rows: 0 };
    for k in 0..rng.below(3) {
        let idx = fresh_index(rng, &g, format!("{name}_i{k}"));
        g.idx.push(idx);
    }
    g
}

fn fresh_index(rng: &mut Rng, t: &GTab, name: String) -> Idx {
    let stored: Vec<String> = t.tab.cols.iter().filter(|c| c.generated.is_none()).map(|c| c.name.clone()).collect();
    let mut cols = stored.clone();
    rng.shuffle(&mut cols);
    cols.truncate(rng.range(1, 2.min(stored.len() as u64)) as usize);
    let whr = if rng.chance(1, 4) { Some(rng.pick(&stored).clone()) } else { None };
    Idx { name, tbl: t.tab.name.clone(), cols, whr, unique: false }
}

fn next_col_name(t: &GTab) -> String {
    for l in ["c", "d", "e", "f", "g", "h", "i", "j", "k", "l", "m", "n", "o", "p", "q", "r"] {
        if !t.tab.cols.iter().any(|c| c.name == l) {
            return l.to_string();
        }
    }
    format!("z{}", t.tab.cols.len())
}

fn line(kind: &str, stmts: &[Stmt]) -> String {
    if stmts.is_empty() {
        format!("{kind} -")
    } else {
        format!("{kind} {}", stmts.iter().map(stmt_token).collect::<Vec<_>>().join(" "))
    }
}

/// a valid edit of an existing table (returns the edited copy)
fn valid_edit(rng: &mut Rng, t: &GTab) -> GTab {
    let mut g = t.clone();
    match rng.below(8) {
        0 | 1 => {
            // one or two new columns, appended or written somewhere in the middle
            // a generated column copies a column that exists already (ALTER TABLE adds the new columns one by one)
            let stored: Vec<String> = t.tab.cols.iter().filter(|c| c.generated.is_none()).map(|c| c.name.clone()).collect();
            for _ in 0..rng.range(1, 2) {
                let name = next_col_name(&g);
                let c = fresh_col(rng, name, &stored, true);
                if rng.chance(1, 2) {
                    g.tab.cols.push(c);
                } else {
                    let at = rng.below(g.tab.cols.len() as u64 + 1) as usize;
                    g.tab.cols.insert(at, c);
                }
            }
        }
        6 => {
            // the same columns written in another order (nothing to do for the database)
            rng.shuffle(&mut g.tab.cols);
        }
        7 => {
            // a new column while an index is dropped (or, without index, added)
            let stored: Vec<String> = t.tab.cols.iter().filter(|c| c.generated.is_none()).map(|c| c.name.clone()).collect();
            let name = next_col_name(&g);
            let c = fresh_col(rng, name, &stored, false);
            let at = rng.below(g.tab.cols.len() as u64 + 1) as usize;
            g.tab.cols.insert(at, c);
            if g.idx.is_empty() {
                let name = format!("{}_i0", g.tab.name);
                let i = fresh_index(rng, t, name);
                g.idx.push(i);
            } else {
                let k = rng.below(g.idx.len() as u64) as usize;
                g.idx.remove(k);
            }
        }
        2 => {
            let n = g.idx.len();
            let name = (0..).map(|k| format!("{}_i{k}", g.tab.name)).find(|nm| !g.idx.iter().any(|i| &i.name == nm)).unwrap();
            let _ = n;
            let i = fresh_index(rng, &g, name);
            g.idx.push(i);
        }
        3 if !g.idx.is_empty() => {
            // change an index
            let k = rng.below(g.idx.len() as u64) as usize;
            let mut ni = fresh_index(rng, &g, g.idx[k].name.clone());
            if ni == g.idx[k] {
                ni.whr = if ni.whr.is_some() { None } else { Some("a".into()) };
            }
            g.idx[k] = ni;
        }
        4 if !g.idx.is_empty() => {
            let k = rng.below(g.idx.len() as u64) as usize;
            g.idx.remove(k);
        }
        _ => {
            // generated columns only (no cr-sqlite alter needed); STORED is possible while the table is empty
            let stored: Vec<String> = g.tab.cols.iter().filter(|c| c.generated.is_none()).map(|c| c.name.clone()).collect();
            let name = next_col_name(&g);
            let mut c = fresh_col(rng, name, &stored, true);
            c.notnull = false;
            c.dflt = None;
            c.generated = Some((g.rows == 0 && rng.chance(1, 3), rng.pick(&stored).clone()));
            g.tab.cols.push(c);
        }
    }
    g
}

/// a column name used neither by the table as it is nor by its edited copy (so that "dropped + added" is a
/// rename and not a redefinition)
fn unused_col_name(t: &GTab, g: &GTab) -> String {
    for l in ["c", "d", "e", "f", "g", "h", "i", "j", "k", "l", "m", "n", "o", "p", "q", "r", "s", "u", "v", "w"] {
        if !t.tab.cols.iter().any(|c| c.name == l) && !g.tab.cols.iter().any(|c| c.name == l) {
            return l.to_string();
        }
    }
    format!("z{}", t.tab.cols.len() + g.tab.cols.len())
}

/// Allowed edits laid over a forbidden one IN THE SAME TABLE: one or two new columns (so that a dropped
/// column does not make the table shorter: rename, drop+add+add), possibly an index added or dropped.
/// `t` is the table as the node knows it, `bad` its forbidden copy.
fn combine_allowed(rng: &mut Rng, t: &GTab, bad: &GTab) -> GTab {
    let mut g = bad.clone();
    // a generated column may only copy an ordinary column that exists before and after the edit
    let stored: Vec<String> = t
        .tab
        .cols
        .iter()
        .filter(|c| c.generated.is_none() && bad.tab.cols.iter().any(|b| b.name == c.name && b.generated.is_none()))
        .map(|c| c.name.clone())
        .collect();
    // where a dropped column used to be (a rename keeps the position)
    let dropped_at = t.tab.cols.iter().position(|c| !bad.tab.cols.iter().any(|b| b.name == c.name));
    for k in 0..rng.range(1, 2) {
        let name = unused_col_name(t, &g);
        let c = fresh_col(rng, name, &stored, true);
        match (k, dropped_at) {
            (0, Some(at)) if rng.chance(1, 2) => g.tab.cols.insert(at.min(g.tab.cols.len()), c),
            _ if rng.chance(1, 2) => g.tab.cols.push(c),
            _ => {
                let at = rng.below(g.tab.cols.len() as u64 + 1) as usize;
                g.tab.cols.insert(at, c);
            }
        }
    }
    match rng.below(4) {
        0 if !g.idx.is_empty() => {
            let k = rng.below(g.idx.len() as u64) as usize;
            g.idx.remove(k);
        }
        1 => {
            let name = (0..).map(|k| format!("{}_i{k}", g.tab.name)).find(|nm| !t.idx.iter().any(|i| &i.name == nm) && !g.idx.iter().any(|i| &i.name == nm)).unwrap();
            let mut i = fresh_index(rng, t, name);
            // only columns that are still there
            i.cols.retain(|c| g.tab.cols.iter().any(|x| &x.name == c));
            if i.whr.as_ref().is_some_and(|w| !g.tab.cols.iter().any(|x| &x.name == w)) {
                i.whr = None;
            }
            if !i.cols.is_empty() {
                g.idx.push(i);
            }
        }
        _ => {}
    }
    g
}

/// a forbidden edit of an existing table; `None` when the chosen edit does not apply to this table
fn forbidden_edit(rng: &mut Rng, t: &GTab) -> Option<(GTab, &'static str)> {
    let mut g = t.clone();
    let nonkey: Vec<usize> = g
        .tab
        .cols
        .iter()
        .enumerate()
        .filter(|(_, c)| !c.inline_pk && !g.tab.tpk.as_ref().is_some_and(|l| l.contains(&c.name)))
        .map(|(i, _)| i)
        .collect();
    let kind = rng.below(13);
    let what = match kind {
        0 => {
            // drop a column that nothing else refers to
            let cand: Vec<usize> = nonkey
                .iter()
                .copied()
                .filter(|i| {
                    let n = &g.tab.cols[*i].name;
                    !g.tab.cols.iter().any(|c| c.generated.as_ref().is_some_and(|x| &x.1 == n))
                        && !g.idx.iter().any(|ix| ix.cols.contains(n) || ix.whr.as_ref() == Some(n))
                })
                .collect();
            let i = *cand.first()?;
            g.tab.cols.remove(i);
            "drop-column"
        }
        1 => {
            let i = *nonkey.first()?;
            let c = &mut g.tab.cols[i];
            c.ty = if c.ty == "TEXT" { "INTEGER".into() } else { "TEXT".into() };
            "change-type"
        }
        2 => {
            let i = *nonkey.iter().find(|i| g.tab.cols[**i].generated.is_none())?;
            let c = &mut g.tab.cols[i];
            c.dflt = Some(match &c.dflt {
                Some(d) if d == "7" => "8".into(),
                _ => "7".into(),
            });
            "change-default"
        }
        3 => {
            let i = *nonkey.iter().find(|i| g.tab.cols[**i].generated.is_none())?;
            let c = &mut g.tab.cols[i];
            if c.notnull {
                c.notnull = false;
            } else {
                c.notnull = true;
                if c.dflt.is_none() {
                    c.dflt = Some("1".into());
                }
            }
            "change-nullability"
        }
        4 => {
            let l = g.tab.tpk.as_mut()?;
            if l.len() < 2 {
                return None;
            }
            l.reverse();
            "pk-reorder"
        }
        5 => {
            // a new column that is part of the key
            let name = next_col_name(&g);
            match g.tab.tpk.as_mut() {
                Some(l) => {
                    l.push(name.clone());
                    g.tab.cols.push(Col { name, ty: "INTEGER".into(), notnull: true, inline_pk: false, fk: false, dflt: Some("0".into()), generated: None });
                }
                None => {
                    // the inline key becomes a table-level key that also names the new column
                    let mut l = vec![];
                    for c in g.tab.cols.iter_mut() {
                        if c.inline_pk {
                            c.inline_pk = false;
                            l.push(c.name.clone());
                        }
                    }
                    l.push(name.clone());
                    g.tab.tpk = Some(l);
                    g.tab.cols.push(Col { name, ty: "INTEGER".into(), notnull: true, inline_pk: false, fk: false, dflt: Some("0".into()), generated: None });
                }
            }
            "pk-add-new-column"
        }
        6 => {
            // an existing column joins / leaves the key
            match g.tab.tpk.as_mut() {
                Some(l) if l.len() >= 2 => {
                    l.pop();
                }
                Some(l) => {
                    let i = *nonkey.iter().find(|i| g.tab.cols[**i].generated.is_none())?;
                    l.push(g.tab.cols[i].name.clone());
                }
                None => {
                    // a different column carries the inline key
                    let i = *nonkey.iter().find(|i| g.tab.cols[**i].generated.is_none())?;
                    for c in g.tab.cols.iter_mut() {
                        c.inline_pk = false;
                    }
                    g.tab.cols[i].inline_pk = true;
                    g.tab.cols[i].notnull = true;
                }
            }
            "pk-change"
        }
        7 => {
            let mut i = fresh_index(rng, &g, format!("{}_u", g.tab.name));
            i.unique = true;
            g.idx.push(i);
            "unique-index"
        }
        8 => {
            let name = next_col_name(&g);
            g.tab.cols.push(Col { name, ty: "INTEGER".into(), notnull: false, inline_pk: false, fk: true, dflt: None, generated: None });
            "foreign-key"
        }
        9 => {
            let name = next_col_name(&g);
            g.tab.cols.push(Col { name, ty: "INTEGER".into(), notnull: true, inline_pk: false, fk: false, dflt: None, generated: None });
            "not-null-without-default"
        }
        10 => {
            if g.rows == 0 {
                return None; // SQLite lets an empty table take a STORED column
            }
            let stored: Vec<String> = g.tab.cols.iter().filter(|c| c.generated.is_none()).map(|c| c.name.clone()).collect();
            let name = next_col_name(&g);
            g.tab.cols.push(Col { name, ty: "INTEGER".into(), notnull: false, inline_pk: false, fk: false, dflt: None, generated: Some((true, stored[0].clone())) });
            "add-stored-generated"
        }
        11 => {
            let l = g.tab.tpk.as_mut()?;
            let _ = l;
            g.tab.pk_expr = true;
            "pk-expr"
        }
        _ => {
            let i = *nonkey.iter().find(|i| g.tab.cols[**i].generated.is_some())?;
            let src_now = g.tab.cols[i].generated.clone()?.1;
            let other = g.tab.cols.iter().find(|c| c.generated.is_none() && c.name != src_now)?.name.clone();
            g.tab.cols[i].generated = Some((false, other));
            "change-generated"
        }
    };
    Some((g, what))
}

fn gen_sequence(rng: &mut Rng, tier: Tier, _index: usize) -> Vec<String> {
    let mut ops: Vec<String> = vec![];
    let mut cur: Vec<GTab> = vec![];
    let mut next_tab = 1usize;
    let n_sub = match tier {
        Tier::Quick => rng.range(5, 7),
        Tier::Thorough => rng.range(4, 9),
    };
    let mut last_valid: Option<String> = None;
    for _ in 0..n_sub {
        // rows before the submission so that every change meets data
        if !cur.is_empty() && rng.chance(3, 5) {
            let k = rng.below(cur.len() as u64) as usize;
            let n = rng.range(1, 3);
            cur[k].rows += n;
            ops.push(format!("rows {} {n}", cur[k].tab.name));
        }
        let roll = rng.below(100);
        if cur.is_empty() || roll < 22 {
            // new table(s)
            let mut stmts = vec![];
            for _ in 0..rng.range(1, 2) {
                let g = fresh_table(rng, format!("t{next_tab}"));
                next_tab += 1;
                stmts.extend(g_stmts(&g));
                cur.push(g);
            }
            let l = line("submit", &stmts);
            last_valid = Some(l.clone());
            ops.push(l);
            if rng.chance(1, 2) {
                // write to the table that was just created
                let k = cur.len() - 1;
                cur[k].rows += 1;
                ops.push(format!("rows {} 1", cur[k].tab.name));
            }
        } else if roll < 50 {
            // valid edits of one or two existing tables, sometimes together with a new table
            let mut stmts = vec![];
            let k = rng.below(cur.len() as u64) as usize;
            cur[k] = valid_edit(rng, &cur[k]);
            stmts.extend(g_stmts(&cur[k]));
            if cur.len() > 1 && rng.chance(1, 3) {
                let k2 = (k + 1) % cur.len();
                cur[k2] = valid_edit(rng, &cur[k2]);
                stmts.extend(g_stmts(&cur[k2]));
            }
            if rng.chance(1, 4) {
                let g = fresh_table(rng, format!("t{next_tab}"));
                next_tab += 1;
                stmts.extend(g_stmts(&g));
                cur.push(g);
            }
            let l = line("submit", &stmts);
            last_valid = Some(l.clone());
            ops.push(l);
        } else if roll < 58 {
            // re-apply: the last valid submission, or the whole current schema
            if let (true, Some(l)) = (rng.chance(1, 2), &last_valid) {
                ops.push(l.clone());
            } else {
                let stmts: Vec<Stmt> = cur.iter().flat_map(g_stmts).collect();
                let l = line("submit", &stmts);
                ops.push(l.clone());
                ops.push(l.clone());
                last_valid = Some(l);
            }
        } else if roll < 88 {
            // a forbidden edit of ONE existing table, optionally after a new valid table in the same submission
            // (the new table is created before the error is met) and next to valid edits of other tables
            let k = rng.below(cur.len() as u64) as usize;
            let Some((bad, _what)) = forbidden_edit(rng, &cur[k]) else { continue };
            // … alone, or together with allowed edits of the same table (a dropped column next to new ones is a
            // rename and leaves the table as long as it was or longer)
            let bad = if rng.chance(1, 2) { combine_allowed(rng, &cur[k], &bad) } else { bad };
            let mut stmts = vec![];
            if rng.chance(1, 2) {
                let g = fresh_table(rng, format!("t{next_tab}"));
                next_tab += 1; // the name is burnt: the table must not exist afterwards
                stmts.extend(g_stmts(&g));
            }
            if cur.len() > 1 && rng.chance(1, 2) {
                let k2 = (k + 1) % cur.len();
                stmts.extend(g_stmts(&valid_edit(rng, &cur[k2])));
            }
            stmts.extend(g_stmts(&bad));
            ops.push(line("submit", &stmts));
        } else if roll < 96 {
            // forbidden at the statement / new-table level
            let g = fresh_table(rng, format!("t{next_tab}"));
            next_tab += 1;
            let mut stmts = g_stmts(&g);
            match rng.below(9) {
                0 => {
                    // syntax error at statement k of several
                    let k = rng.below(stmts.len() as u64 + 1) as usize;
                    stmts.insert(k, Stmt::SyntaxError);
                }
                1 => stmts.push(Stmt::Drop(rng.pick(&cur).tab.name.clone())),
                2 => {
                    // index before its table / for a table that is not part of the submission
                    let t = rng.pick(&cur).clone();
                    stmts.push(Stmt::Index(fresh_index(rng, &t, format!("{}_x", t.tab.name))));
                }
                3 => {
                    // second new table without a primary key
                    let mut b = fresh_table(rng, format!("t{next_tab}"));
                    next_tab += 1;
                    for c in b.tab.cols.iter_mut() {
                        c.inline_pk = false;
                    }
                    b.tab.tpk = None;
                    stmts.extend(g_stmts(&b));
                }
                4 => {
                    // second new table whose key column is nullable
                    let mut b = fresh_table(rng, format!("t{next_tab}"));
                    next_tab += 1;
                    b.tab.cols[0].notnull = false;
                    stmts.extend(g_stmts(&b));
                }
                5 => {
                    // second new table re-using an index name of an existing table
                    let donors: Vec<&GTab> = cur.iter().filter(|t| !t.idx.is_empty()).collect();
                    if let Some(d) = donors.first() {
                        let mut b = fresh_table(rng, format!("t{next_tab}"));
                        next_tab += 1;
                        let mut i = fresh_index(rng, &b, d.idx[0].name.clone());
                        i.tbl = b.tab.name.clone();
                        b.idx.push(i);
                        stmts.extend(g_stmts(&b));
                    } else {
                        stmts.push(Stmt::SyntaxError);
                    }
                }
                6 => {
                    let mut b = fresh_table(rng, format!("t{next_tab}"));
                    next_tab += 1;
                    let name = next_col_name(&b);
                    b.tab.cols.push(Col { name, ty: "TEXT".into(), notnull: true, inline_pk: false, fk: false, dflt: None, generated: None });
                    stmts.extend(g_stmts(&b));
                }
                7 => {
                    let mut b = fresh_table(rng, format!("t{next_tab}"));
                    next_tab += 1;
                    let mut i = fresh_index(rng, &b, format!("{}_u", b.tab.name));
                    i.unique = true;
                    b.idx.push(i);
                    stmts.extend(g_stmts(&b));
                }
                _ => {
                    let mut b = fresh_table(rng, format!("t{next_tab}"));
                    next_tab += 1;
                    let name = next_col_name(&b);
                    b.tab.cols.push(Col { name, ty: "INTEGER".into(), notnull: false, inline_pk: false, fk: true, dflt: None, generated: None });
                    stmts.extend(g_stmts(&b));
                }
            }
            ops.push(line("submit", &stmts));
        } else if roll < 98 {
            ops.push("submit -".into());
        } else {
            // a table that exists in the database but not in the node's schema, then submitted (reconcile path)
            let g = fresh_table(rng, format!("t{next_tab}"));
            next_tab += 1;
            ops.push(line("extern", &g_stmts(&g)));
            let mut sub = g.clone();
            match rng.below(3) {
                0 => {}
                1 => {
                    let name = next_col_name(&sub);
                    sub.tab.cols.push(Col { name, ty: "TEXT".into(), notnull: false, inline_pk: false, fk: false, dflt: None, generated: None });
                }
                _ => {
                    if let Some(l) = sub.tab.tpk.as_mut() {
                        l.reverse();
                    }
                }
            }
            ops.push(line("submit", &g_stmts(&sub)));
            // whatever happened, later submissions leave this table alone
        }
        if rng.chance(1, 5) {
            ops.push("restart".into());
        }
    }
    if !cur.is_empty() {
        let t = rng.pick(&cur).tab.name.clone();
        ops.push(format!("rows {t} 1"));
    }
    ops.push("restart".into());
    ops
}
