//! C03 — a remote transaction becomes visible atomically, exactly when all chunks arrived.
//! Real agents through the cluster kit: node 0 is the origin, node 1 receives the version in pieces
//! (any cut, order, duplicates, overlaps, batching, mixed with other versions), node 2 receives the
//! whole version at once as the reference.
use crate::cluster::{Cluster, gen_stmt_for};
use crate::rng::Rng;
use crate::runner::{CaseResult, Prop, Tier};

pub struct C03;

fn big_tx(rng: &mut Rng) -> String {
    // several fresh rows so that the version has enough changes to be cut into up to 5 pieces
    let n = rng.range(3, 6);
    let mut st = vec![];
    for i in 0..n {
        match rng.below(3) {
            0 => st.push(format!("ins:u:i{}+t{:02x}:x=t{:02x}", 10 + i, 0x61 + i, rng.range(0x61, 0x7a))),
            1 => st.push(format!("ins:t:i{}:a=t{:02x},b=i{}", 10 + i, rng.range(0x61, 0x7a), rng.range(0, 9))),
            _ => st.push(format!("ins:t:i{}:a=t{:02x}", 20 + i, rng.range(0x61, 0x7a))),
        }
    }
    if rng.chance(1, 3) {
        st.push(format!("ins:k:i{}:-", rng.range(1, 5)));
    }
    st.join(";")
}

/// scenario "overwritten range": the receiver misses a contiguous block of the transaction's statements; the
/// origin then overwrites those rows (all of their cells, or only some) in a later version, so that the answer
/// to the receiver's Partial need is a chunk with NO change (or fewer); the version must still become visible.
fn gen_overwritten(rng: &mut Rng) -> Vec<String> {
    let k = rng.range(3, 6) as usize; // statements, two changes each: seqs 2j, 2j+1
    let st: Vec<String> = (0..k).map(|j| format!("ins:t:i{}:a=t{:02x},b=i{}", 10 + j, rng.range(0x61, 0x79), rng.range(0, 9))).collect();
    let mut ops = vec![format!("nw 0 {}", st.join(";")), "TARGET".to_string(), "ndump 1".to_string()];
    let m_lo = rng.below(k as u64) as usize;
    let m_hi = (m_lo + rng.below(2) as usize).min(k - 1);
    // deliver everything except statements m_lo..=m_hi, as one or two chunks, in a seeded order
    let mut chunks = vec![];
    if m_lo > 0 {
        chunks.push(format!("o:0:V:0-{}", 2 * m_lo - 1));
    }
    if m_hi + 1 < k {
        chunks.push(format!("o:0:V:{}-{}", 2 * (m_hi + 1), 2 * k - 1));
    }
    rng.shuffle(&mut chunks);
    for c in &chunks {
        ops.push(format!("nb 1 {c}"));
        ops.push("ndump 1".into());
    }
    // the origin overwrites the missing rows
    let full = rng.chance(2, 3);
    let ups: Vec<String> = (m_lo..=m_hi)
        .map(|j| if full || rng.chance(1, 2) { format!("upd:t:i{}:a=t7a7a,b=i77", 10 + j) } else { format!("upd:t:i{}:b=i77", 10 + j) })
        .collect();
    ops.push(format!("nw 0 {}", ups.join(";")));
    // reference node gets the whole version first, then everybody syncs with the origin
    ops.push("nb 2 o:0:V:all".into());
    ops.push("ndump 2".into());
    ops.push(format!("nsync 1 {} all", if rng.chance(2, 3) { 0 } else { 2 }));
    ops.push("ndump 1".into());
    ops
}

/// scenario "two origins": while the receiver holds a partially buffered version of ANOTHER actor (node 3) with
/// the same version number and overlapping seq numbers, the target version of node 0 arrives in pieces, becomes
/// complete, is applied and its buffered copies are cleared; the other actor's version is completed afterwards.
/// Both must become visible whole (seeded change C03-2: the clear job's DELETE forgot the site id).
fn gen_two_origins(rng: &mut Rng) -> Vec<String> {
    let k = rng.range(3, 5) as usize;
    let st: Vec<String> = (0..k).map(|j| format!("ins:t:i{}:a=t{:02x},b=i{}", 10 + j, rng.range(0x61, 0x79), rng.range(0, 9))).collect();
    let mut ops = vec![format!("nw 0 {}", st.join(";")), "TARGET".to_string()];
    // node 3: version 1 (one row), version 2 = the second transaction (keys 30..), same shape
    ops.push("nw 3 ins:t:i8:a=t70,b=i1".into());
    let k2 = rng.range(2, 5) as usize;
    let st2: Vec<String> = (0..k2).map(|j| format!("ins:t:i{}:a=t{:02x},b=i{}", 30 + j, rng.range(0x61, 0x79), rng.range(0, 9))).collect();
    ops.push(format!("nw 3 {}", st2.join(";")));
    if rng.chance(1, 2) {
        ops.push("nb 1 o:3:1:all".into());
    }
    ops.push("ndump 1".into());
    // part of the other actor's version first
    let parts2 = rng.range(2, 3);
    let first2 = rng.below(parts2);
    ops.push(format!("nb 1 o:3:2:p{first2}of{parts2}"));
    ops.push("ndump 1".into());
    // the target in pieces, any order, possibly with a duplicate
    let n = rng.range(2, 4);
    let mut pieces: Vec<String> = (0..n).map(|i| format!("p{i}of{n}")).collect();
    if rng.chance(1, 3) {
        pieces.push(pieces[0].clone());
    }
    rng.shuffle(&mut pieces);
    for pc in &pieces {
        ops.push(format!("nb 1 o:0:V:{pc}"));
        ops.push("ndump 1".into());
    }
    // the rest of the other actor's version
    for i in 0..parts2 {
        if i != first2 {
            ops.push(format!("nb 1 o:3:2:p{i}of{parts2}"));
            ops.push("ndump 1".into());
        }
    }
    ops.push("nb 2 o:0:V:all".into());
    ops.push("ndump 2".into());
    ops.push("nb 2 o:3:1:all|o:3:2:all".into());
    ops.push("nsync 1 3 all".into());
    ops.push("nsync 2 3 all".into());
    ops
}

fn gen_ops(rng: &mut Rng, tier: Tier) -> Vec<String> {
    if rng.chance(1, 3) {
        return gen_overwritten(rng);
    }
    if rng.chance(1, 4) {
        return gen_two_origins(rng);
    }
    let mut ops = vec![];
    // some earlier history on the origin and the receiver (conflicting rows), already exchanged or not
    let pre = rng.range(0, 3);
    for _ in 0..pre {
        let node = rng.below(2);
        ops.push(format!("nw {node} {}", gen_stmt_for(rng, 1)));
    }
    if rng.chance(1, 2) {
        ops.push("nsync 1 0 all".into());
    }
    // the transaction under test: next version of node 0 (its number is whatever the origin says; the oracle
    // reads it from the output)
    ops.push(format!("nw 0 {}", big_tx(rng)));
    ops.push("TARGET".into());
    // optionally the origin overwrites part of it afterwards (relay/origin then serves a live subset)
    let overwrite = rng.chance(1, 3);
    if overwrite {
        ops.push(format!("nw 0 upd:t:i{}:a=t7a7a", 10 + rng.below(3)));
    }
    ops.push("ndump 1".into());
    let n = rng.range(2, if tier == Tier::Thorough { 5 } else { 4 });
    let mut pieces: Vec<String> = (0..n).map(|k| format!("p{k}of{n}")).collect();
    // duplicates and overlapping pieces of another partition
    for _ in 0..rng.below(3) {
        let m = rng.range(2, 3);
        pieces.push(format!("p{}of{m}", rng.below(m)));
    }
    if rng.chance(1, 4) {
        pieces.push(pieces[0].clone());
    }
    rng.shuffle(&mut pieces);
    let mut i = 0;
    while i < pieces.len() {
        let take = if rng.chance(1, 4) { 2.min(pieces.len() - i) } else { 1 };
        let mut items: Vec<String> = pieces[i..i + take].iter().map(|p| format!("o:0:V:{p}")).collect();
        // interleave another version of the same actor now and then
        if rng.chance(1, 6) {
            items.push("o:0:1:all".to_string());
        }
        ops.push(format!("nb 1 {}", items.join("|")));
        ops.push("ndump 1".into());
        i += take;
    }
    // a missing piece may be fetched through sync instead (origin or the relay node 2)
    ops.push("nb 2 o:0:V:all".into());
    ops.push("ndump 2".into());
    if rng.chance(1, 2) {
        ops.push(format!("nsync 1 {} all", if rng.chance(1, 2) { 0 } else { 2 }));
        ops.push("ndump 1".into());
    }
    ops
}

/// replaces the placeholders: `TARGET` marks the op before it as the version under test; `V` in items is
/// that version. Needs the real version number, so it is resolved while executing.
fn resolve(ops: &[String]) -> Vec<String> {
    ops.iter().filter(|o| o.as_str() != "TARGET").cloned().collect()
}

impl Prop for C03 {
    fn id(&self) -> &'static str {
        "C03"
    }
    fn rule(&self) -> &'static str {
        "one case = one origin transaction delivered to a real agent in 2-5 pieces (+ duplicates and overlapping pieces of \
         another cut) in a seeded order and batching, mixed with other versions, with a reference node receiving it whole; \
         non-trivial iff the version was delivered in at least 2 chunks before it became visible; distinct by op-list hash"
    }
    fn default_cases(&self, tier: Tier) -> usize {
        match tier {
            Tier::Quick => 60,
            Tier::Thorough => 1500,
        }
    }
    fn gen_case(&self, rng: &mut Rng, tier: Tier, _index: usize) -> Vec<String> {
        // the version number of the transaction under test is known statically: count the `nw 0` ops that can
        // produce a version is NOT reliable (no-ops, errors), so the generator emits `V` and the number of
        // preceding `nw 0` ops; exec resolves `V` from the real acknowledgement. To keep replays pure functions
        // of the op lines, `V` is resolved HERE by a dry run of the model-free rule: the target tx inserts
        // fresh keys (10..29) and therefore always succeeds; earlier `nw 0` ops may or may not produce a
        // version, so the generator avoids them: history before the target is written on node 1 only, plus
        // exactly one guaranteed write on node 0.
        let mut ops = gen_ops(rng, tier);
        // rewrite: every `nw 0 <stmt>` before TARGET becomes a write on node 1, then one guaranteed origin write
        let tpos = ops.iter().position(|o| o == "TARGET").unwrap();
        for o in ops.iter_mut().take(tpos - 1) {
            if o.starts_with("nw 0 ") {
                *o = o.replacen("nw 0 ", "nw 1 ", 1);
            }
        }
        ops.insert(0, "nw 0 ins:t:i9:a=t6f,b=i1".into()); // version 1 of node 0, always succeeds
        let mut ops = resolve(&ops);
        // closing block: both the receiver and the reference node sync with the origin (lossless); their tables
        // must then agree on the transaction's rows
        for o in ["nsync 1 0 all", "nsync 2 0 all", "nsync 1 0 all", "ndump 1", "ndump 2"] {
            ops.push(o.to_string());
        }
        // target = version 2 of node 0; a later overwrite is version 3
        ops.into_iter().map(|o| o.replace(":V:", ":2:")).collect()
    }
    fn exec_case(&self, ops: &[String]) -> CaseResult {
        let mut r = CaseResult::default();
        let mut cl = Cluster::new("c03");
        for op in ops {
            let toks: Vec<&str> = op.split_whitespace().collect();
            let out = cl.exec(&toks).unwrap_or_else(|| "bad-op".into());
            if out.starts_with("inconclusive") {
                r.inconclusive = Some(out.clone());
            }
            r.outputs.push(out);
        }
        let outs = r.outputs.clone();
        oracle(ops, &outs, &mut r);
        r
    }
}

fn rows_of(dump: &str) -> String {
    dump.split(" | ").nth(1).unwrap_or("").to_string()
}

fn book_clean(dump: &str) -> bool {
    let book = dump.split(" | ").nth(2).unwrap_or("");
    book.contains("seqs[]") && book.contains("buf[]")
}

fn proj(dump: &str) -> String {
    // (table,pk,cid,value,col_version,cl) of every live entry, attribution dropped
    dump.split(" | ")
        .next()
        .unwrap_or("")
        .split(';')
        .map(|e| {
            let (kv, clock) = e.rsplit_once('@').unwrap_or((e, ""));
            let mut p = clock.split('.');
            format!("{kv}@{}.{}", p.next().unwrap_or(""), p.next().unwrap_or(""))
        })
        .collect::<Vec<_>>()
        .join(";")
}

/// the property on the implementation's own trace:
///  * while the union of the delivered pieces of the target version does not cover 0..=last, the receiver's
///    tables show none of the target's rows (keys 10..29 are only written by the target transaction);
///  * once covered, all of them are visible in the next dump, and the receiver's tables equal the reference's
///    as far as those keys are concerned.
fn oracle(ops: &[String], outs: &[String], r: &mut CaseResult) {
    // target = second acknowledged write of node 0
    let mut acks = vec![];
    for (op, out) in ops.iter().zip(outs) {
        if op.starts_with("nw 0 ") && out.starts_with("ok v=") {
            acks.push(out.clone());
        }
    }
    let Some(target) = acks.get(1) else { return };
    let ver: u64 = target[5..].split(' ').next().and_then(|v| v.parse().ok()).unwrap_or(0);
    let seqs: Vec<u64> = target
        .split(' ')
        .nth(2)
        .unwrap_or("")
        .split(';')
        .filter_map(|c| c.rsplit('.').next().and_then(|s| s.parse().ok()))
        .collect();
    let last = seqs.iter().copied().max().unwrap_or(0);
    let target_keys = |rows: &str| -> Vec<String> {
        rows.split(';')
            .filter(|row| {
                let key = row.split(':').next().unwrap_or("");
                let pk = key.split('/').nth(1).unwrap_or("");
                let first = pk.split('+').next().unwrap_or("");
                first.strip_prefix('i').and_then(|n| n.parse::<u64>().ok()).map(|n| (10..30).contains(&n)).unwrap_or(false)
            })
            .map(|s| s.to_string())
            .collect()
    };
    // the second transaction (scenario "two origins"): keys 30..49 are written only by version 2 of node 3
    let second_rows: usize = ops
        .iter()
        .filter(|o| o.starts_with("nw 3 ") && o.contains(":i3"))
        .map(|o| o.matches("ins:t:i3").count() + o.matches("ins:t:i4").count())
        .sum();
    let second_keys = |rows: &str| -> Vec<String> {
        rows.split(';')
            .filter(|row| {
                let key = row.split(':').next().unwrap_or("");
                let pk = key.split('/').nth(1).unwrap_or("");
                pk.strip_prefix('i').and_then(|n| n.parse::<u64>().ok()).map(|n| (30..50).contains(&n)).unwrap_or(false)
            })
            .map(|s| s.to_string())
            .collect()
    };
    let mut covered = vec![false; (last + 1) as usize];
    let mut chunks_before_visible = 0;
    let mut visible = false;
    let mut synced = false;
    let mut reference: Option<String> = None;
    let mut first_covered: Option<String> = None;
    let overwritten = acks.len() > 2;
    for (op, out) in ops.iter().zip(outs) {
        let t: Vec<&str> = op.split_whitespace().collect();
        match t.as_slice() {
            ["nb", "1", items] if out == "ok" => {
                for it in items.split('|') {
                    let p: Vec<&str> = it.split(':').collect();
                    if p.len() == 4 && p[0] == "o" && p[1] == "0" && p[2].parse::<u64>().ok() == Some(ver) {
                        if let Some((lo, hi)) = crate::cluster::chunk_spec(p[3], last) {
                            for s in lo..=hi.min(last) {
                                covered[s as usize] = true;
                            }
                            if !visible {
                                chunks_before_visible += 1;
                            }
                        }
                    }
                }
            }
            ["nsync", "1", _, _] => synced = true,
            ["ndump", "2"] => {
                // the reference is the dump taken right after the whole-version delivery (before any sync)
                if reference.is_none() {
                    reference = Some(out.clone());
                }
            }
            ["ndump", "1"] => {
                let sk = second_keys(&rows_of(out));
                if second_rows > 0 && !sk.is_empty() && sk.len() != second_rows {
                    r.oracle_failures.push(format!(
                        "a transaction of another actor is visible in part ({} of {} rows): {}",
                        sk.len(),
                        second_rows,
                        sk.join(";")
                    ));
                }
                let keys = target_keys(&rows_of(out));
                let all_cov = covered.iter().all(|c| *c);
                if !all_cov && !synced {
                    if !keys.is_empty() {
                        r.oracle_failures.push(format!(
                            "changes of a partially received version are visible before all chunks arrived: {}",
                            keys.join(";")
                        ));
                    }
                } else if all_cov || synced {
                    visible = true;
                    if all_cov && !synced && first_covered.is_none() {
                        first_covered = Some(out.clone());
                    }
                    if keys.is_empty() && all_cov {
                        r.oracle_failures.push("version fully received but none of its rows is visible".into());
                    }
                }
            }
            _ => {}
        }
    }
    // comparison with the reference node (which received the version whole) on the transaction's rows:
    // the first dump after the last missing piece arrived (before any sync brought later versions), or, when the
    // version was completed by sync and nothing overwrote it afterwards, the final dump
    let last1 = ops.iter().zip(outs).rev().find(|(o, _)| o.as_str() == "ndump 1").map(|(_, o)| o.clone());
    let cmp = first_covered.or(if synced && !overwritten { last1 } else { None });
    if let (Some(refd), Some(got)) = (reference, cmp) {
        let a = target_keys(&rows_of(&got));
        let b = target_keys(&rows_of(&refd));
        if a != b {
            r.oracle_failures.push(format!("chunked delivery and whole delivery disagree on the transaction's rows: {a:?} vs {b:?}"));
        }
        let keyed = |d: &str| -> Vec<String> {
            proj(d)
                .split(';')
                .filter(|e| {
                    let pk = e.split('/').nth(1).unwrap_or("");
                    let first = pk.split('+').next().unwrap_or("");
                    first.strip_prefix('i').and_then(|n| n.parse::<u64>().ok()).map(|n| (10..30).contains(&n)).unwrap_or(false)
                })
                .map(|s| s.to_string())
                .collect()
        };
        if keyed(&got) != keyed(&refd) {
            r.oracle_failures.push("chunked delivery and whole delivery disagree on per-cell (col_version, cl) of the transaction's rows".into());
        }
    }
    // closing block: after lossless sessions with the origin the receiver and the reference agree on the
    // transaction's rows and their (col_version, cl)
    let n = ops.len();
    if n >= 2 && ops[n - 2] == "ndump 1" && ops[n - 1] == "ndump 2" {
        let (d1, d2) = (&outs[n - 2], &outs[n - 1]);
        let a = target_keys(&rows_of(d1));
        let b = target_keys(&rows_of(d2));
        if a != b {
            r.oracle_failures.push(format!(
                "after lossless sync with the origin the receiver of the chunked transaction and the reference node disagree on its rows: {a:?} vs {b:?}"
            ));
        }
        let (a2, b2) = (second_keys(&rows_of(d1)), second_keys(&rows_of(d2)));
        if a2 != b2 {
            r.oracle_failures.push(format!(
                "after lossless sync the receiver and the reference node disagree on the rows of the other actor's transaction: {a2:?} vs {b2:?}"
            ));
        }
        if !book_clean(d1) {
            r.oracle_failures.push("the receiver still holds buffered / partial data of a version after its missing ranges were answered by a holder".into());
        }
    }
    r.nontrivial = chunks_before_visible >= 2;
    r.tags.push(format!("chunks-before-visible:{}", chunks_before_visible.min(6)));
    if synced {
        r.tags.push("completed-by-sync".into());
    }
}
