//! C01 — convergence.  Two op families:
//!  * `c*` ops: plain cr-sqlite databases (no agent): local writes and merges through
//!    `INSERT INTO crsql_changes`, which tie the Lean CRDT model (`Corro.Crdt`) to the bundled
//!    cr-sqlite extension;
//!  * cluster ops (see `cluster.rs`) on real in-process agents.
use std::collections::BTreeMap;

use klukai_types::sqlite::CrConn;

use crate::crkit::*;
use crate::rng::Rng;
use crate::runner::{CaseResult, Prop, Tier};

pub struct C01;

struct CrdtWorld {
    _dir: TmpDir,
    dbs: BTreeMap<usize, CrConn>,
    /// original change list of every local transaction: (db, version) -> changes
    log: BTreeMap<(usize, i64), Vec<Chg>>,
}

impl CrdtWorld {
    fn new() -> Self {
        CrdtWorld { _dir: TmpDir::new("c01"), dbs: BTreeMap::new(), log: BTreeMap::new() }
    }
    fn db(&mut self, i: usize) -> &mut CrConn {
        if !self.dbs.contains_key(&i) {
            let c = open_plain_db(self._dir.path(), i).expect("open db");
            self.dbs.insert(i, c);
        }
        self.dbs.get_mut(&i).unwrap()
    }
}

fn err_class(e: &rusqlite::Error) -> String {
    match e.sqlite_error_code() {
        Some(rusqlite::ErrorCode::ConstraintViolation) => "err constraint".into(),
        Some(c) => format!("err sqlite-{c:?}"),
        None => "err other".into(),
    }
}

fn show_chs(chs: &[Chg]) -> String {
    if chs.is_empty() { "-".into() } else { chs.iter().map(|c| c.show()).collect::<Vec<_>>().join(";") }
}

fn local_write(w: &mut CrdtWorld, db: usize, stmts: &str) -> String {
    let conn = w.db(db);
    let before: i64 = conn.query_row("SELECT crsql_db_version()", [], |r| r.get(0)).unwrap();
    let res: rusqlite::Result<()> = (|| {
        let tx = conn.transaction()?;
        for s in stmts.split(';') {
            let (sql, params) = match stmt_sql(s) {
                Some(x) => x,
                None => return Err(rusqlite::Error::InvalidQuery),
            };
            tx.execute(&sql, rusqlite::params_from_iter(params))?;
        }
        tx.commit()
    })();
    match res {
        Err(rusqlite::Error::InvalidQuery) => "bad-op".into(),
        Err(e) => err_class(&e),
        Ok(()) => {
            let after: i64 = conn.query_row("SELECT crsql_db_version()", [], |r| r.get(0)).unwrap();
            if after == before {
                return "noop".into();
            }
            let site = site_id(db).to_vec();
            let mut chs = read_changes(conn, "WHERE site_id = ? AND db_version = ? ORDER BY seq", &[&site, &after]).unwrap();
            chs.sort_by_key(|c| c.seq);
            let out = format!("ok v={after} {}", show_chs(&chs));
            w.log.insert((db, after), chs);
            out
        }
    }
}

fn parse_seqs(tok: &str) -> Option<(i64, i64)> {
    if tok == "all" {
        return Some((0, i64::MAX));
    }
    let (a, b) = tok.split_once('-')?;
    Some((a.parse().ok()?, b.parse().ok()?))
}

fn merge_into(conn: &mut CrConn, chs: &[Chg]) -> rusqlite::Result<usize> {
    let tx = conn.transaction()?;
    let mut n = 0;
    for c in chs {
        n += tx
            .prepare_cached(
                r#"INSERT INTO crsql_changes ("table", pk, cid, val, col_version, db_version, site_id, cl, seq)
                   VALUES (?, ?, ?, ?, ?, ?, ?, ?, ?)"#,
            )?
            .execute(rusqlite::params![c.table, c.pk_raw, c.cid, to_sql(&c.val_raw), c.colv, c.dbv, c.site_raw, c.cl, c.seq])?;
    }
    tx.commit()?;
    Ok(n)
}

fn exec_crdt(w: &mut CrdtWorld, toks: &[&str]) -> String {
    let pu = |s: &str| s.parse::<usize>().ok().filter(|x| *x < 8);
    match toks {
        ["cw", db, stmts] => match pu(db) {
            Some(db) => local_write(w, db, stmts),
            None => "bad-op".into(),
        },
        ["cm", dst, from, site, ver, seqs] => {
            let (Some(dst), Some(from), Some(site), Ok(ver), Some((lo, hi))) =
                (pu(dst), pu(from), pu(site), ver.parse::<i64>(), parse_seqs(seqs))
            else {
                return "bad-op".into();
            };
            let sid = site_id(site).to_vec();
            let chs = read_changes(
                w.db(from),
                "WHERE site_id = ? AND db_version = ? AND seq BETWEEN ? AND ? ORDER BY seq",
                &[&sid, &ver, &lo, &hi],
            )
            .unwrap();
            match merge_into(w.db(dst), &chs) {
                Ok(_) => format!("ok n={} | {}", chs.len(), dump_db(w.db(dst)).unwrap()),
                Err(e) => err_class(&e),
            }
        }
        ["co", dst, site, ver, seqs] => {
            let (Some(dst), Some(site), Ok(ver), Some((lo, hi))) = (pu(dst), pu(site), ver.parse::<i64>(), parse_seqs(seqs))
            else {
                return "bad-op".into();
            };
            let chs: Vec<Chg> = match w.log.get(&(site, ver)) {
                Some(l) => l.iter().filter(|c| c.seq >= lo && c.seq <= hi).cloned().collect(),
                None => return "err no-such-version".into(),
            };
            match merge_into(w.db(dst), &chs) {
                Ok(_) => format!("ok n={} | {}", chs.len(), dump_db(w.db(dst)).unwrap()),
                Err(e) => err_class(&e),
            }
        }
        ["dump", db] => match pu(db) {
            Some(db) => dump_db(w.db(db)).unwrap(),
            None => "bad-op".into(),
        },
        _ => "bad-op".into(),
    }
}

// ------------------------------------------------------------------ generator (crdt family)

fn gen_val(rng: &mut Rng, col: &str) -> String {
    // TEXT-affinity columns never get integers (SQLite would store them as text); INTEGER ones only
    // integers or NULL, so that what is written is what is stored.
    match col {
        "b" => match rng.below(6) {
            0 => "n".into(),
            _ => format!("i{}", rng.range(0, 3)),
        },
        _ => match rng.below(8) {
            0 => "n".into(),
            1 => "t".into(), // empty text
            2 => format!("b{:02x}", rng.range(0x61, 0x63)),
            3 => format!("t{:02x}{:02x}", rng.range(0x61, 0x62), rng.range(0x61, 0x62)),
            _ => format!("t{:02x}", rng.range(0x61, 0x63)),
        },
    }
}

fn gen_pk(rng: &mut Rng, tbl: &str) -> String {
    match tbl {
        "u" => format!("i{}+t{:02x}", rng.range(1, 2), rng.range(0x61, 0x62)),
        _ => format!("i{}", rng.range(1, 3)),
    }
}

fn gen_stmt(rng: &mut Rng) -> String {
    let tbl = *rng.pick(&["t", "t", "t", "u", "k"]);
    let (_, cols) = table_cols(tbl).unwrap();
    let pk = gen_pk(rng, tbl);
    let kind = if cols.is_empty() { *rng.pick(&["ins", "del"]) } else { *rng.pick(&["ins", "ins", "upd", "upd", "upd", "del"]) };
    match kind {
        "del" => format!("del:{tbl}:{pk}"),
        _ => {
            let mut assigns = vec![];
            for c in cols {
                if rng.chance(2, 3) {
                    assigns.push(format!("{c}={}", gen_val(rng, c)));
                }
            }
            if kind == "upd" && assigns.is_empty() {
                assigns.push(format!("{}={}", cols[0], gen_val(rng, cols[0])));
            }
            format!("{kind}:{tbl}:{pk}:{}", if assigns.is_empty() { "-".into() } else { assigns.join(",") })
        }
    }
}

fn gen_crdt_case(rng: &mut Rng, tier: Tier) -> Vec<String> {
    let ndb = rng.range(2, 4) as usize;
    let nops = if tier == Tier::Thorough { rng.range(6, 40) } else { rng.range(4, 22) };
    let mut ops = vec![];
    let mut vers: Vec<i64> = vec![0; ndb]; // optimistic count of versions per db
    for _ in 0..nops {
        match rng.below(10) {
            0..=3 => {
                let db = rng.below(ndb as u64) as usize;
                let n = if rng.chance(1, 3) { rng.range(2, 4) } else { 1 };
                let st: Vec<String> = (0..n).map(|_| gen_stmt(rng)).collect();
                ops.push(format!("cw {db} {}", st.join(";")));
                vers[db] += 1;
            }
            4..=6 => {
                // merge original changes of some version somewhere
                let site = rng.below(ndb as u64) as usize;
                if vers[site] == 0 {
                    continue;
                }
                let dst = rng.below(ndb as u64) as usize;
                let ver = rng.range(1, vers[site] as u64);
                let seqs = if rng.chance(1, 4) { let a = rng.range(0, 2); format!("{a}-{}", a + rng.range(0, 2)) } else { "all".into() };
                if dst != site {
                    ops.push(format!("co {dst} {site} {ver} {seqs}"));
                }
            }
            7..=8 => {
                // relay: merge what `from` currently holds of (site, ver)
                let site = rng.below(ndb as u64) as usize;
                if vers[site] == 0 {
                    continue;
                }
                let from = rng.below(ndb as u64) as usize;
                let dst = rng.below(ndb as u64) as usize;
                let ver = rng.range(1, vers[site] as u64);
                if dst != from && dst != site {
                    ops.push(format!("cm {dst} {from} {site} {ver} all"));
                }
            }
            _ => ops.push(format!("dump {}", rng.below(ndb as u64))),
        }
    }
    // final: everybody gets everything (origin payloads), in a seeded order, then dumps
    let mut all: Vec<(usize, i64)> = vec![];
    for (s, n) in vers.iter().enumerate() {
        for v in 1..=*n {
            all.push((s, v));
        }
    }
    for dst in 0..ndb {
        let mut order = all.clone();
        rng.shuffle(&mut order);
        for (s, v) in order {
            if s != dst {
                ops.push(format!("co {dst} {s} {v} all"));
            }
        }
    }
    for dst in 0..ndb {
        ops.push(format!("dump {dst}"));
    }
    ops
}

/// scripted shape (seeded change C01-2): a relay holds a version with a HOLE (non-adjacent chunks) and serves a
/// client that has never heard of the version (Full need); the client must learn exactly the ranges the relay
/// holds and keep asking for the hole. Then random completion paths and the usual closing rounds.
fn gen_holey_relay_case(rng: &mut Rng) -> Vec<String> {
    let k = rng.range(3, 5);
    let st: Vec<String> = (0..k).map(|j| format!("ins:t:i{}:a=t{:02x},b=i{}", 1 + j, rng.range(0x61, 0x79), rng.range(0, 9))).collect();
    let mut ops = vec![format!("nw 0 {}", st.join(";"))];
    if rng.chance(1, 2) {
        ops.push(format!("nw 0 ins:u:i{}+t61:x=t{:02x}", rng.range(1, 4), rng.range(0x61, 0x79)));
    }
    let n = rng.range(3, 4);
    let mut held: Vec<u64> = vec![0, n - 1];
    if n == 4 && rng.chance(1, 2) {
        held = vec![0, 2];
    }
    rng.shuffle(&mut held);
    for h in &held {
        ops.push(format!("nb 2 o:0:1:p{h}of{n}"));
    }
    ops.push("nstate 2".into());
    ops.push("nsync 1 2 all".into());
    ops.push("ndump 1".into());
    match rng.below(4) {
        0 => ops.push(format!("nb 1 o:0:1:p1of{n}")),
        1 => ops.push("nsync 1 2 all".into()),
        2 => {
            ops.push("nkill 1".into());
            ops.push("nrestart 1".into());
        }
        _ => {}
    }
    for _round in 0..3 {
        for d in 0..3 {
            for s_ in 0..3 {
                if d != s_ {
                    ops.push(format!("nsync {d} {s_} all"));
                }
            }
        }
    }
    for i in 0..3 {
        ops.push(format!("ndump {i}"));
    }
    ops
}

impl Prop for C01 {
    fn id(&self) -> &'static str {
        "C01"
    }
    fn rule(&self) -> &'static str {
        "one case = a history of local transactions on 2-4 real cr-sqlite databases interleaved with merges of original \
         and relayed change lists in seeded orders, ending with everybody receiving everything; non-trivial iff at least \
         one merge met a conflicting write (a change was rejected or overwrote a live entry); distinct by hash of the op list"
    }
    fn default_cases(&self, tier: Tier) -> usize {
        match tier {
            Tier::Quick => 250,
            Tier::Thorough => 4000,
        }
    }
    fn gen_case(&self, rng: &mut Rng, tier: Tier, index: usize) -> Vec<String> {
        // one case in five drives real agents (slower); the others plain cr-sqlite databases
        if index % 20 == 9 {
            return gen_holey_relay_case(rng);
        }
        if index % 5 == 4 {
            let mix = crate::cluster::GenMix {
                nodes: (2, 3),
                ops: if tier == Tier::Thorough { (8, 40) } else { (6, 22) },
                crash: true,
                partial_chunks: true,
                lossy_sync: true,
            };
            crate::cluster::gen_cluster_case(rng, &mix)
        } else {
            gen_crdt_case(rng, tier)
        }
    }
    fn end(&self) {
        cleanup_template();
    }
    fn exec_case(&self, ops: &[String]) -> CaseResult {
        let mut r = CaseResult::default();
        let mut w = CrdtWorld::new();
        let mut cl: Option<crate::cluster::Cluster> = None;
        let mut final_dumps: BTreeMap<usize, String> = BTreeMap::new();
        let mut tail = true;
        for op in ops {
            let toks: Vec<&str> = op.split_whitespace().collect();
            let out = if toks.first().map(|t| t.starts_with('n') || *t == "tag").unwrap_or(false) {
                let c = cl.get_or_insert_with(|| crate::cluster::Cluster::new("c01n"));
                c.exec(&toks).unwrap_or_else(|| "bad-op".into())
            } else {
                exec_crdt(&mut w, &toks)
            };
            if out.starts_with("inconclusive") {
                r.inconclusive = Some(out.clone());
            }
            if out.starts_with("err") {
                r.tags.push(out.clone());
            }
            r.outputs.push(out);
        }
        if cl.is_some() {
            for f in crate::cluster::convergence_oracle(ops, &r.outputs) {
                r.oracle_failures.push(f);
            }
            r.nontrivial = ops.iter().filter(|o| o.starts_with("nsync") || o.starts_with("nb")).count() >= 3;
            r.tags.push("cluster".into());
            return r;
        }
        // oracle: the trailing block of `dump` ops (after the all-to-all merge) must agree on everything but
        // nothing here knows the model: compare the dumps with each other
        for (op, out) in ops.iter().zip(r.outputs.iter()).rev() {
            let toks: Vec<&str> = op.split_whitespace().collect();
            if tail && toks.first() == Some(&"dump") {
                final_dumps.insert(toks[1].parse().unwrap_or(99), out.clone());
            } else {
                tail = false;
            }
        }
        if final_dumps.len() >= 2 && ops.iter().any(|o| o.starts_with("co ")) {
            let strip = |d: &String| -> String {
                // compare values and (col_version, cl) only: drop the attribution (site.dbv.seq) of each entry
                let (ch, rows) = d.split_once(" | ").unwrap_or((d.as_str(), ""));
                let ents: Vec<String> = ch
                    .split(';')
                    .map(|e| {
                        let (kv, clock) = e.rsplit_once('@').unwrap_or((e, ""));
                        let mut p = clock.split('.');
                        format!("{kv}@{}.{}", p.next().unwrap_or(""), p.next().unwrap_or(""))
                    })
                    .collect();
                format!("{} | {rows}", ents.join(";"))
            };
            let first = strip(final_dumps.values().next().unwrap());
            for (db, d) in &final_dumps {
                if strip(d) != first {
                    r.oracle_failures.push(format!("databases did not converge: db {db} differs after all-to-all merge"));
                    break;
                }
            }
            r.nontrivial = true;
        }
        r
    }
}
